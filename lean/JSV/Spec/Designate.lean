/-
  Spec: which subschema a reference designates (JSON Schema 2020-12 §8.2, §9.2; draft-07 §8; RFC 3986 §5;
  RFC 6901).  Declarative: no traversal, no tables, no state.

  * A document is the tree of subschemas under a root.  The *schema resource* of a subschema is its
    nearest ancestor-or-self that carries a resource-establishing `$id`, else the document root.
  * A plain-name fragment designates the schema of that resource that declares the name
    (`$anchor`, `$dynamicAnchor`; in draft-07 an `$id` with a fragment).
  * A reference is resolved (RFC 3986 §5) against the URI of the resource it occurs in; the part
    before `#` names a resource, the fragment selects inside it: empty = the resource root, leading
    `/` = JSON Pointer from the resource root, otherwise a plain name.
-/
import JSV.Model.Resolve
namespace JSV
namespace Spec
open Go (Draft)

/-- a document: the subschemas under `root`, read under `draft` -/
structure Doc where
  st : Store
  draft : Draft
  root : NodeId

/-! ### the tree -/

/-- `c` is an immediate subschema of `p` -/
def isChild (st : Store) (p c : NodeId) : Bool :=
  match st.get? p with
  | some n => n.children.contains c
  | none => false

/-- `a :: l` leads from `a` down to `s`, every schema an immediate subschema of the one before it -/
def isLineage (st : Store) : NodeId → List NodeId → NodeId → Bool
  | a, [], s => a == s
  | a, b :: l, s => isChild st a b && isLineage st b l s

/-- `s` is a subschema of the document (`l` = its ancestors below the root, then `s` itself) -/
def Doc.Has (D : Doc) (s : NodeId) : Prop := ∃ l, isLineage D.st D.root l s = true

/-! ### schema resources -/

/-- the fragment of an `$id` read as a URI reference ("" when there is none) -/
def idFragment (id : String) : String :=
  match Uri.parse id with
  | .ok u => u.fragment
  | _ => ""

/-- the `$id` of this schema object establishes a schema resource.
    2020-12: every `$id` (one with a non-empty fragment is not a valid schema).
    draft-07: an `$id` without fragment; every keyword beside `$ref` is ignored. -/
def startsResource (draft : Draft) (n : Node) : Bool :=
  match draft with
  | .d2020 => n.id != ""
  | .d7 => n.id != "" && n.ref == "" && idFragment n.id == ""

def startsResourceAt (st : Store) (draft : Draft) (s : NodeId) : Bool :=
  match st.get? s with
  | some n => startsResource draft n
  | none => false

/-- along a lineage (root excluded): the last schema that establishes a resource, else the root -/
def nearestResource (D : Doc) (l : List NodeId) : NodeId :=
  ((l.filter (startsResourceAt D.st D.draft)).getLast?).getD D.root

/-- `r` is the root of the schema resource `s` belongs to: the nearest ancestor-or-self of `s`
    establishing a resource, else the document root -/
def Doc.ResourceRoot (D : Doc) (s r : NodeId) : Prop :=
  ∃ l, isLineage D.st D.root l s = true ∧ nearestResource D l = r

/-! ### base URIs -/

/-- the `$id` of a schema as a URI reference -/
def idUrl (st : Store) (s : NodeId) : Uri.Url :=
  match st.get? s with
  | some n => (match Uri.parse n.id with
    | .ok u => u
    | _ => {})
  | none => {}

/-- the base URI in force at the end of a lineage (RFC 3986 §5.1): starting from the retrieval URI
    of the document, resolve in turn the `$id` of every resource-establishing schema on the way,
    the root included -/
def baseUriAlong (D : Doc) (retrieval : Uri.Url) (l : List NodeId) : Uri.Url :=
  ((D.root :: l).filter (startsResourceAt D.st D.draft)).foldl
    (fun u r => Uri.resolveReference u (idUrl D.st r)) retrieval

/-- `u` is the base URI of schema `s`: the URI of the schema resource it belongs to -/
def Doc.BaseUri (D : Doc) (retrieval : Uri.Url) (s : NodeId) (u : Uri.Url) : Prop :=
  ∃ l, isLineage D.st D.root l s = true ∧ baseUriAlong D retrieval l = u

/-- the fragment-less URI `k` identifies the schema resource rooted at `r`: `r` is a resource root and
    `k` is its URI; the document root is identified by the retrieval URI as well -/
def Doc.Identifies (D : Doc) (retrieval : Uri.Url) (k : String) (r : NodeId) : Prop :=
  (r = D.root ∧ k = Uri.toString retrieval) ∨
  (D.ResourceRoot r r ∧ ∃ u, D.BaseUri retrieval r u ∧ k = Uri.toString u)

/-! ### plain-name fragments -/

/-- strings.TrimPrefix(s, "#") -/
def dropHash (s : String) : String :=
  match s.toList with
  | '#' :: r => String.ofList r
  | _ => s

/-- the plain names a schema object declares, with "is dynamic" -/
def declaredAnchors (draft : Draft) (n : Node) : List (String × Bool) :=
  (match draft with
   | .d2020 => [(n.anchor, false), (n.dynamicAnchor, true)]
   | .d7 => if n.id != "" && n.ref == "" && idFragment n.id != "" then [(dropHash n.id, false)] else []
  ).filter (·.1 != "")

def Doc.Declares (D : Doc) (t : NodeId) (a : String) (dyn : Bool) : Prop :=
  ∃ n, D.st.get? t = some n ∧ (a, dyn) ∈ declaredAnchors D.draft n

/-- `t` is a schema of resource `r` that declares the plain name `a` -/
def Doc.AnchorTarget (D : Doc) (r : NodeId) (a : String) (t : NodeId) : Prop :=
  D.ResourceRoot t r ∧ ∃ dyn, D.Declares t a dyn

/-- a valid schema declares a plain name at most once per resource -/
def Doc.NoDupAnchors (D : Doc) : Prop :=
  ∀ r a t t', D.AnchorTarget r a t → D.AnchorTarget r a t' → t = t'

/-! ### fragments -/

/-- the schema the fragment `frag` selects in the resource rooted at `r` -/
def Doc.FragTarget (D : Doc) (r : NodeId) (frag : String) (t : NodeId) : Prop :=
  if frag = "" then t = r
  else if frag.toList.head? = some '/' then Pointer.dereference D.st true true r frag = .ok t
  else D.AnchorTarget r frag t

/-! ### references -/

/-- `$ref: ref` (or `$dynamicRef`, lexically) in schema `s` designates `t`: the reference is resolved
    against the base URI of `s` (RFC 3986 §5.2); the URI without its fragment identifies a schema
    resource of the document; the fragment selects a schema inside it -/
def Doc.Designates (D : Doc) (retrieval : Uri.Url) (s : NodeId) (ref : String) (t : NodeId) : Prop :=
  ∃ bu refURI r, D.BaseUri retrieval s bu ∧ Uri.parse ref = .ok refURI ∧
    D.Identifies retrieval (Uri.toString (Uri.dropFragment (Uri.resolveReference bu refURI))) r ∧
    D.FragTarget r (Uri.resolveReference bu refURI).fragment t

/-- the same when other documents have been resolved too (`docs`: each with its retrieval URI): the
    fragment-less URI identifies a schema resource of the document the reference occurs in, or the
    root of one of the documents (by its retrieval URI or by the URI its own `$id` gives it), and the
    fragment selects inside that document -/
def DesignatesAmong (docs : List (Doc × Uri.Url)) (D : Doc) (retrieval : Uri.Url) (s : NodeId) (ref : String)
    (t : NodeId) : Prop :=
  ∃ bu refURI, D.BaseUri retrieval s bu ∧ Uri.parse ref = .ok refURI ∧
    ((∃ r, D.Identifies retrieval (Uri.toString (Uri.dropFragment (Uri.resolveReference bu refURI))) r ∧
        D.FragTarget r (Uri.resolveReference bu refURI).fragment t) ∨
     (∃ e ∈ docs, e.1.Identifies e.2 (Uri.toString (Uri.dropFragment (Uri.resolveReference bu refURI))) e.1.root ∧
        e.1.FragTarget e.1.root (Uri.resolveReference bu refURI).fragment t))

end Spec
end JSV
