/-
  The statement of the refinement between the operational evaluator (Model/Validate.lean) and the
  declarative validity relation (Spec/Valid.lean): definitions only.
-/
import JSV.Model.Validate
import JSV.Spec.Valid
namespace JSV
namespace Refine
open Go

/-- the Spec environment read off the resolution tables the evaluator uses -/
def specEnvOf (env : VEnv) : Spec.Env :=
  { st := env.st
    draft := env.draft
    refTarget := fun s => (env.info? s).bind (·.resolvedRef)
    dynInitial := fun s => (env.info? s).bind (·.resolvedDynamicRef)
    dynName := fun s => ((env.info? s).map (·.dynamicRefAnchor)).getD ""
    resource := fun s => (env.info? s).bind (·.base)
    dynDecl := fun r name => (env.info? r).bind fun i =>
      match Json.lookup name i.anchors with
      | some a => if a.dynamic then some a.schema else none
      | none => none
    reMatch := env.reMatch }

/-- what Resolve establishes about its side tables (resolve_invariants, C03/C10) -/
structure EnvWF (env : VEnv) : Prop where
  /-- every schema object has an info record -/
  info_total : ∀ s n, env.st.get? s = some n → (env.info? s).isSome = true
  /-- every info record names a base resource that has an info record itself -/
  base_total : ∀ s i, env.info? s = some i → ∃ b bi, i.base = some b ∧ env.info? b = some bi
  /-- the per-call hash respects value equality (C12.hash_law gives this for every seed) -/
  hash_respects : ∀ x y, equalValue x y = .ok true → env.hash x = env.hash y

def keysOf : Json → List String
  | .obj kvs => kvs.map (·.1)
  | _ => []

def lenOf : Json → Nat
  | .arr xs => xs.length
  | _ => 0

/-- the set of properties / items the compressed annotation record stands for -/
def γprop (a : Anns) (k : String) : Bool := a.allProperties || a.evaluatedProperties.contains k
def γitem (a : Anns) (i : Nat) : Bool := a.allItems || decide (i < a.endIndex) || a.evaluatedIndexes.contains i

/-- the annotations the evaluator returns denote exactly the Spec's evaluated sets, on the
    properties and items the instance has -/
def AnnsMatch (j : Json) (a : Anns) (ev : Spec.Ev) : Prop :=
  (∀ k, k ∈ keysOf j → γprop a k = ev.props.contains k) ∧
  (∀ i, i < lenOf j → γitem a i = ev.items.contains i)

/-- logical relation between a Spec answer and a model answer for one (schema, instance) -/
def Rel (j : Json) (r : Spec.Out) (m : Res Anns) : Prop :=
  match r with
  | none => True                                   -- Spec undefined with this fuel: no statement
  | some none => m = .err                          -- invalid ⇒ the evaluator returns an error
  | some (some ev) => ∃ a, m = .ok a ∧ AnnsMatch j a ev

end Refine
end JSV
