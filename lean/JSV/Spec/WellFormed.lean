/-
  Spec: when is a schema document well-formed for Schema.Resolve — the hypotheses of the completeness
  theorems of C03 (`resolve_complete_selfcontained`, `resolve_ok_iff_selfcontained`).  One named
  condition per reason resolve.go has to return an error other than "this reference designates nothing":

    W1 `retrievalOf base = .ok b`   the BaseURI option is empty or parses (Schema.Resolve)
    W2 `b.fragment = ""`            … and has no fragment (resolver.resolve)
    W3 `structureOk`                the subschemas form a tree without nil pointers (checkStructure)
    W4 `localOk`                    checkLocal accepts every subschema (regexps compile, `type`/`types`, …)
    W5 `Doc.IdsOk` / `idsOk`        every `$id` that is read parses, has no fragment in 2020-12, and — when it
                                    establishes a resource — resolves to an absolute URI (resolveURIs)
    W6 `Doc.UniqueIds` / `uniqueIds` no URI identifies two resources.  resolve.go does NOT check this (a second
                                    `$id` with the same URI silently replaces the first in `resolvedURIs`); without
                                    it "designates" is ambiguous and the resolver may pick a resource in which the
                                    fragment selects nothing although it selects something in the other one.
    D  `Doc.RefsDesignate`          every `$ref` and every `$dynamicRef` (lexically) designates a subschema of the
                                    document

  Each condition is decidable; where the declarative form quantifies over lineages a `Bool` checker is given
  next to it (soundness of the checkers: JSV/Proofs/ResCompleteWF.lean).
-/
import JSV.Spec.Designate
namespace JSV
namespace Spec
open Go (Draft Env)

/-- the draft Schema.Resolve reads the top document under: what `$schema` selects, 2020-12 without `$schema` -/
def topDraft (env : Env) (root : NodeId) : Draft :=
  match env.st.get? root with
  | some rn => if rn.schema == "" then .d2020 else Go.detectDraft env rn.schema
  | none => .d2020

/-- the document Schema.Resolve works on -/
def topDoc (env : Env) (root : NodeId) : Doc := ⟨env.st, topDraft env root, root⟩

/-! ### W3, W4: structure and local checks -/

/-- W3: checkStructure accepts the document (a tree, no nil subschema) -/
def structureOk (st : Store) (root : NodeId) : Bool :=
  (Go.checkStructure st (st.size + 2) [(root, "")] []).isOk

/-- the subschemas checkStructure registers -/
def docNodes (st : Store) (root : NodeId) : List NodeId :=
  match Go.checkStructure st (st.size + 2) [(root, "")] [] with
  | .ok fresh => fresh.map (·.1)
  | _ => []

/-- W4: checkLocal reports nothing for any subschema -/
def localOk (env : Env) (root : NodeId) : Bool :=
  (docNodes env.st root).all fun id =>
    match env.st.get? id with
    | some nd => Go.checkLocalOk env nd
    | none => false

/-! ### W5: `$id` -/

/-- the `$id` of `n` is read: present, and (draft-07) not beside a `$ref` -/
def idRead (draft : Draft) (n : Node) : Bool := n.id != "" && !(draft == .d7 && n.ref != "")

/-- a `$id` that is read is a URI reference; in 2020-12 it has no fragment -/
def idSyntaxOk (draft : Draft) (n : Node) : Bool :=
  !idRead draft n ||
    (match Uri.parse n.id with
     | .ok u => !(draft == .d2020 && u.fragment != "")
     | _ => false)

/-- W5: along every lineage, the `$id` is well-formed, and the URI of every resource is absolute -/
def Doc.IdsOk (D : Doc) (retrieval : Uri.Url) : Prop :=
  ∀ l s n, isLineage D.st D.root l s = true → D.st.get? s = some n →
    idSyntaxOk D.draft n = true ∧
    (startsResource D.draft n = true → Uri.isAbs (baseUriAlong D retrieval l) = true)

/-! ### W6: URIs identify at most one resource -/

def Doc.UniqueIds (D : Doc) (retrieval : Uri.Url) : Prop :=
  ∀ k r r', D.Identifies retrieval k r → D.Identifies retrieval k r' → r = r'

/-! ### D: references -/

/-- every `$ref` / `$dynamicRef` of the schemas `nodes` designates a subschema of the document -/
def Doc.RefsDesignate (D : Doc) (retrieval : Uri.Url) (nodes : List NodeId) : Prop :=
  ∀ id ∈ nodes, ∀ n, D.st.get? id = some n →
    (n.ref ≠ "" → ∃ t, D.Designates retrieval id n.ref t) ∧
    (n.dynamicRef ≠ "" → ∃ t, D.Designates retrieval id n.dynamicRef t)

/-! ### Bool checkers for W5, W6: enumerate the subschemas with the base URI in force at each -/

def subschemas (st : Store) (s : NodeId) : List NodeId :=
  match st.get? s with
  | some n => n.children
  | none => []

/-- the base URI after schema `s`, `bu` being the base URI of its parent -/
def stepBase (st : Store) (draft : Draft) (s : NodeId) (bu : Uri.Url) : Uri.Url :=
  if startsResourceAt st draft s then Uri.resolveReference bu (idUrl st s) else bu

/-- every schema at depth < fuel under `s`, with its base URI -/
def basesFrom (st : Store) (draft : Draft) : Nat → NodeId → Uri.Url → List (NodeId × Uri.Url)
  | 0, _, _ => []
  | f + 1, s, bu =>
    (s, stepBase st draft s bu) ::
      (subschemas st s).flatMap fun c => basesFrom st draft f c (stepBase st draft s bu)

/-- no schema lies at depth ≥ fuel under `s` -/
def withinDepth (st : Store) : Nat → NodeId → Bool
  | 0, _ => false
  | f + 1, s => (subschemas st s).all fun c => withinDepth st f c

def Doc.depthOk (D : Doc) : Bool := withinDepth D.st (D.st.size + 1) D.root

def Doc.bases (D : Doc) (retrieval : Uri.Url) : List (NodeId × Uri.Url) :=
  basesFrom D.st D.draft (D.st.size + 1) D.root retrieval

/-- checker for W5 -/
def Doc.idsOk (D : Doc) (retrieval : Uri.Url) : Bool :=
  D.depthOk && (D.bases retrieval).all fun e =>
    match D.st.get? e.1 with
    | some n => idSyntaxOk D.draft n && (!startsResource D.draft n || Uri.isAbs e.2)
    | none => true

/-- the (URI, resource root) pairs of the document -/
def Doc.identKeys (D : Doc) (retrieval : Uri.Url) : List (String × NodeId) :=
  (Uri.toString retrieval, D.root) ::
    ((D.bases retrieval).filter fun e => startsResourceAt D.st D.draft e.1 || e.1 == D.root).map
      fun e => (Uri.toString e.2, e.1)

/-- checker for W6 -/
def Doc.uniqueIds (D : Doc) (retrieval : Uri.Url) : Bool :=
  D.depthOk && (D.identKeys retrieval).all fun a => (D.identKeys retrieval).all fun b => a.1 != b.1 || a.2 == b.2

end Spec
end JSV
