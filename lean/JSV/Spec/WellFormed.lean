/-
  Spec: when is a schema document well-formed for Schema.Resolve — the hypotheses of the completeness
  theorems of C03 (`resolve_complete_selfcontained`, `resolve_ok_iff_selfcontained`).  One named
  condition per reason resolve.go has to return an error other than "this reference designates nothing":

    W1 `retrievalOf base = .ok b`   the BaseURI option is empty or parses (Schema.Resolve)
    W2 `b.fragment = ""`            … and has no fragment (resolver.resolve)
    W3 `structureOk`                the subschemas form a tree without nil pointers (checkStructure)
    W4 `localOk`                    checkLocal accepts every subschema (regexps compile, `type`/`types`, …)
    W5 `Doc.IdsOk` / `idsOk`        every `$id` that is read parses, has no fragment in 2020-12, and — when it
                                    establishes a resource — resolves to an absolute URI (resolveURIs)
    W6 `Doc.UniqueIds` / `uniqueIds` no URI identifies two resources.  resolve.go does NOT check this (a second
                                    `$id` with the same URI silently replaces the first in `resolvedURIs`); without
                                    it "designates" is ambiguous and the resolver may pick a resource in which the
                                    fragment selects nothing although it selects something in the other one.
    D  `Doc.RefsDesignate`          every `$ref` and, in a 2020-12 document, every `$dynamicRef` (lexically) designates
                                    a subschema of the document

  Each condition is decidable; where the declarative form quantifies over lineages a `Bool` checker is given
  next to it (soundness of the checkers: JSV/Proofs/ResCompleteWF.lean).
-/
import JSV.Spec.Designate
namespace JSV
namespace Spec
open Go (Draft Env)

/-- the draft Schema.Resolve reads the top document under: what `$schema` selects, 2020-12 without `$schema` -/
def topDraft (env : Env) (root : NodeId) : Draft :=
  match env.st.get? root with
  | some rn => if rn.schema == "" then .d2020 else Go.detectDraft env rn.schema
  | none => .d2020

/-- the document Schema.Resolve works on -/
def topDoc (env : Env) (root : NodeId) : Doc := ⟨env.st, topDraft env root, root⟩

/-! ### W3, W4: structure and local checks -/

/-- W3: checkStructure accepts the document (a tree, no nil subschema) -/
def structureOk (st : Store) (root : NodeId) : Bool :=
  (Go.checkStructure st (st.size + 2) [(root, "")] []).isOk

/-- the subschemas checkStructure registers -/
def docNodes (st : Store) (root : NodeId) : List NodeId :=
  match Go.checkStructure st (st.size + 2) [(root, "")] [] with
  | .ok fresh => fresh.map (·.1)
  | _ => []

/-- W4: checkLocal reports nothing for any subschema -/
def localOk (env : Env) (root : NodeId) : Bool :=
  (docNodes env.st root).all fun id =>
    match env.st.get? id with
    | some nd => Go.checkLocalOk env nd
    | none => false

/-! ### W5: `$id` -/

/-- the `$id` of `n` is read: present, and (draft-07) not beside a `$ref` -/
def idRead (draft : Draft) (n : Node) : Bool := n.id != "" && !(draft == .d7 && n.ref != "")

/-- a `$id` that is read is a URI reference; in 2020-12 it has no fragment -/
def idSyntaxOk (draft : Draft) (n : Node) : Bool :=
  !idRead draft n ||
    (match Uri.parse n.id with
     | .ok u => !(draft == .d2020 && u.fragment != "")
     | _ => false)

/-- W5: along every lineage, the `$id` is well-formed, and the URI of every resource is absolute -/
def Doc.IdsOk (D : Doc) (retrieval : Uri.Url) : Prop :=
  ∀ l s n, isLineage D.st D.root l s = true → D.st.get? s = some n →
    idSyntaxOk D.draft n = true ∧
    (startsResource D.draft n = true → Uri.isAbs (baseUriAlong D retrieval l) = true)

/-! ### W6: URIs identify at most one resource -/

def Doc.UniqueIds (D : Doc) (retrieval : Uri.Url) : Prop :=
  ∀ k r r', D.Identifies retrieval k r → D.Identifies retrieval k r' → r = r'

/-! ### D: references -/

/-- every `$ref` / `$dynamicRef` of the schemas `nodes` designates a subschema of the document (`$dynamicRef` is a
    keyword of 2020-12 only: in a draft-07 document it is an unknown keyword and need not designate anything) -/
def Doc.RefsDesignate (D : Doc) (retrieval : Uri.Url) (nodes : List NodeId) : Prop :=
  ∀ id ∈ nodes, ∀ n, D.st.get? id = some n →
    (n.ref ≠ "" → ∃ t, D.Designates retrieval id n.ref t) ∧
    (D.draft = .d2020 → n.dynamicRef ≠ "" → ∃ t, D.Designates retrieval id n.dynamicRef t)

/-! ### Bool checkers for W5, W6: enumerate the subschemas with the base URI in force at each -/

def subschemas (st : Store) (s : NodeId) : List NodeId :=
  match st.get? s with
  | some n => n.children
  | none => []

/-- the base URI after schema `s`, `bu` being the base URI of its parent -/
def stepBase (st : Store) (draft : Draft) (s : NodeId) (bu : Uri.Url) : Uri.Url :=
  if startsResourceAt st draft s then Uri.resolveReference bu (idUrl st s) else bu

/-- every schema at depth < fuel under `s`, with its base URI -/
def basesFrom (st : Store) (draft : Draft) : Nat → NodeId → Uri.Url → List (NodeId × Uri.Url)
  | 0, _, _ => []
  | f + 1, s, bu =>
    (s, stepBase st draft s bu) ::
      (subschemas st s).flatMap fun c => basesFrom st draft f c (stepBase st draft s bu)

/-- no schema lies at depth ≥ fuel under `s` -/
def withinDepth (st : Store) : Nat → NodeId → Bool
  | 0, _ => false
  | f + 1, s => (subschemas st s).all fun c => withinDepth st f c

def Doc.depthOk (D : Doc) : Bool := withinDepth D.st (D.st.size + 1) D.root

def Doc.bases (D : Doc) (retrieval : Uri.Url) : List (NodeId × Uri.Url) :=
  basesFrom D.st D.draft (D.st.size + 1) D.root retrieval

/-- checker for W5 -/
def Doc.idsOk (D : Doc) (retrieval : Uri.Url) : Bool :=
  D.depthOk && (D.bases retrieval).all fun e =>
    match D.st.get? e.1 with
    | some n => idSyntaxOk D.draft n && (!startsResource D.draft n || Uri.isAbs e.2)
    | none => true

/-- the (URI, resource root) pairs of the document -/
def Doc.identKeys (D : Doc) (retrieval : Uri.Url) : List (String × NodeId) :=
  (Uri.toString retrieval, D.root) ::
    ((D.bases retrieval).filter fun e => startsResourceAt D.st D.draft e.1 || e.1 == D.root).map
      fun e => (Uri.toString e.2, e.1)

/-- checker for W6 -/
def Doc.uniqueIds (D : Doc) (retrieval : Uri.Url) : Bool :=
  D.depthOk && (D.identKeys retrieval).all fun a => (D.identKeys retrieval).all fun b => a.1 != b.1 || a.2 == b.2


/-! ### several documents: a Loader whose documents are all present

`top` is the schema Resolve is called on, `b` its retrieval URI, and every document is read under one draft
`dr`.  A document is *named* by its retrieval URI (for a Loader document: a URL whose string is its key in the
Loader table) and by the URI its root `$id` gives it. -/

/-- `key` names document `x`: as a URI identifying the root of the top document, or of a Loader document retrieved
    from `u` (`Uri.toString u` being its key in the table) -/
def NameOf (env : Env) (top : NodeId) (dr : Draft) (b : Uri.Url) (key : String) (x : NodeId) : Prop :=
  (x = top ∧ (⟨env.st, dr, top⟩ : Doc).Identifies b key top) ∨
  (∃ tbl u, env.loader = some tbl ∧ Json.lookup (Uri.toString u) tbl = some (.doc x) ∧
    (⟨env.st, dr, x⟩ : Doc).Identifies u key x)

/-- no URI names two documents -/
def Coherent (env : Env) (top : NodeId) (dr : Draft) (b : Uri.Url) : Prop :=
  ∀ key x y, NameOf env top dr b key x → NameOf env top dr b key y → x = y

/-- the document resolveRef finds for a fragment-less URI that identifies nothing in the referring document:
    the top document under one of its names, or the Loader's document for that URI -/
def NamedDoc (env : Env) (top : NodeId) (dr : Draft) (b : Uri.Url) (key : String) (x : NodeId) : Prop :=
  (x = top ∧ (⟨env.st, dr, top⟩ : Doc).Identifies b key top) ∨
  (∃ tbl, env.loader = some tbl ∧ Json.lookup key tbl = some (.doc x))

/-- the reference `ref` in schema `id` of document `D` (retrieved from `ret`) designates something: in `D`
    itself, or — when its fragment-less URI identifies nothing in `D` — in the document that URI names -/
def Doc.RefGood (env : Env) (top : NodeId) (b : Uri.Url) (D : Doc) (ret : Uri.Url) (id : NodeId) (ref : String) :
    Prop :=
  ∃ bu refURI, D.BaseUri ret id bu ∧ Uri.parse ref = .ok refURI ∧
    ((∃ r, D.Identifies ret (Uri.toString (Uri.dropFragment (Uri.resolveReference bu refURI))) r ∧
        ∃ t, D.FragTarget r (Uri.resolveReference bu refURI).fragment t) ∨
     ((∀ r, ¬ D.Identifies ret (Uri.toString (Uri.dropFragment (Uri.resolveReference bu refURI))) r) ∧
        ∃ x, NamedDoc env top D.draft b (Uri.toString (Uri.dropFragment (Uri.resolveReference bu refURI))) x ∧
          ∃ t, (⟨D.st, D.draft, x⟩ : Doc).FragTarget x (Uri.resolveReference bu refURI).fragment t))

/-- one document of the universe is well-formed (W2–W6) and all its references are good -/
structure DocWF (env : Env) (top : NodeId) (b : Uri.Url) (D : Doc) (ret : Uri.Url) : Prop where
  frag : ret.fragment = ""
  struct : structureOk D.st D.root = true
  locals : localOk env D.root = true
  ids : D.IdsOk ret
  uniq : D.UniqueIds ret
  refs : ∀ id ∈ Go.allNodes D.st (D.st.size + 2) [D.root], ∀ n, D.st.get? id = some n →
    (n.ref ≠ "" → D.RefGood env top b ret id n.ref) ∧
    (D.draft = .d2020 → n.dynamicRef ≠ "" → D.RefGood env top b ret id n.dynamicRef)

/-- the whole universe: the top document and every document of the Loader table -/
structure UniverseOk (env : Env) (top : NodeId) (dr : Draft) (b : Uri.Url) : Prop where
  /-- the top document is read under `dr` -/
  topDr : topDraft env top = dr
  /-- every Loader document declares no `$schema`, or one that selects `dr` -/
  loaderDraft : ∀ tbl k r rn, env.loader = some tbl → Json.lookup k tbl = some (.doc r) → env.st.get? r = some rn →
    (if rn.schema == "" then dr else Go.detectDraft env rn.schema) = dr
  topDoc : DocWF env top b ⟨env.st, dr, top⟩ b
  docs : ∀ tbl u r, env.loader = some tbl → Json.lookup (Uri.toString u) tbl = some (.doc r) → u.fragment = "" →
    DocWF env top b ⟨env.st, dr, r⟩ u
  coherent : Coherent env top dr b

end Spec
end JSV
