/-
  Spec: encoding/json on struct types WITH embedded fields (JSV/Spec/EncJson.lean is the fragment without them).

  * `candidates` : encode.go `typeFields`, the collection phase.  The breadth-first scan is written as the index
                   preorder of the same tree; per declared field (`classify`):
                     - an unexported non-embedded field, an embedded field of unexported non-struct type, and any field
                       tagged `json:"-"` are ignored;
                     - an embedded struct (by value or by pointer, exported or not) without a JSON tag name is explored:
                       its fields are candidates one level deeper;
                     - everything else is a candidate under its tag name, or its Go name (`tagged` says which); this
                       includes embedded structs *with* a tag name and embedded non-struct types.
  * `typeFields` : … and the dominance phase: of the candidates of one JSON name the one of least depth wins, among
                   several of that depth the one whose name comes from a tag, and if that does not single one out the
                   name is dropped (`dominantField`).  The result is in index order, the order json.Marshal emits.
                   (encoding/json explores a struct type once per level and doubles the fields of a type met twice at
                   one level; on the tree this is the same thing: two copies of one field at one depth annihilate, and a
                   type met again deeper only repeats names that are already dominated.  Recursive embeddings are
                   outside the type language, see JSV/Model/InferEmb.lean.)
  * `encodeE`    : json.Marshal; the fields promoted through a nil embedded pointer are left out;
  * `decodableE` : json.Decoder with DisallowUnknownFields;
  * `HasTypeE`   : typing; an embedded pointer is non-nil (the domain of C04: with a nil embedded pointer the required
                   promoted fields are missing from the output);
  * `InDomainE`  : the domain of the `_partial` theorems of C04/C16 (see there).

  As in EncJson.lean the JSON name and the options of a field are read with the library's own `fieldJSONInfo`;
  `tagged` is "the tag has a name part".  encoding/json additionally discards tag names that are not `isValidTag`
  (H_D15): on the domain (`fieldTagOk`) there are none.
-/
import JSV.Model.InferEmb
import JSV.Spec.EncJson
namespace JSV
namespace EncJsonEmb
open Go (GoTypeE FieldE VField allFields fieldJSONInfo JsonInfo foldEq tagLookup)
open EncJson (GoValue basicHasType fieldSkipped decodableBasic strictlySorted domainKinds fieldTagOk)

/-- encode.go `field` -/
structure TField where
  index : List Nat
  name : String          -- the JSON name
  tagged : Bool          -- the name comes from the tag
  omitempty : Bool
  omitzero : Bool
  type : GoTypeE
  deriving Inhabited

/-- the name part of the `json` tag ("" if there is none) -/
def jsonTagName (tag : String) : String :=
  match tagLookup "json" tag with
  | some t => (t.splitOn ",").headD ""
  | none => ""

/-- `Kind() == reflect.Struct` -/
def isStructE : GoTypeE → Bool
  | .struct _ => true
  | .named _ (.struct _) => true
  | _ => false

/-- `if t.Kind() == reflect.Pointer { t = t.Elem() }` -/
def derefE : GoTypeE → GoTypeE
  | .ptr e => e
  | t => t

inductive FieldClass where
  | ignored | leaf | descend
  deriving DecidableEq

/-- what `typeFields` does with one declared field -/
def classify (f : FieldE GoTypeE) : FieldClass :=
  if f.embedded then
    if !f.exported && !isStructE (derefE f.type) then .ignored          -- embedded fields of unexported non-struct types
    else if (fieldJSONInfo f.goName f.tag).omitted then .ignored         -- tag == "-"
    else if jsonTagName f.tag != "" || !isStructE (derefE f.type) then .leaf
    else .descend                                                        -- "record new anonymous struct to explore in next round"
  else if !f.exported then .ignored                                      -- unexported non-embedded fields
  else if (fieldJSONInfo f.goName f.tag).omitted then .ignored
  else .leaf

def mkTField (index : List Nat) (f : FieldE GoTypeE) : TField :=
  { index := index, name := (fieldJSONInfo f.goName f.tag).name, tagged := jsonTagName f.tag != "",
    omitempty := (fieldJSONInfo f.goName f.tag).omitempty, omitzero := (fieldJSONInfo f.goName f.tag).omitzero,
    type := f.type }

mutual
  /-- the collection phase of `typeFields`, in index order -/
  def candidates (pre : List Nat) : Nat → List (FieldE GoTypeE) → List TField
    | _, [] => []
    | i, f :: rest =>
      (match classify f with
       | .ignored => []
       | .leaf => [mkTField (pre ++ [i]) f]
       | .descend => embCandidates (pre ++ [i]) f.type) ++ candidates pre (i + 1) rest
  def embCandidates (idx : List Nat) : GoTypeE → List TField
    | .ptr (.named _ (.struct fs)) => candidates idx 0 fs
    | .ptr (.struct fs) => candidates idx 0 fs
    | .named _ (.struct fs) => candidates idx 0 fs
    | .struct fs => candidates idx 0 fs
    | _ => []
end

/-- `f` comes before `o` in the order "depth, then tagged" -/
def dominates (f o : TField) : Bool :=
  decide (f.index.length < o.index.length) || (f.index.length == o.index.length && f.tagged && !o.tagged)

/-- `dominantField`: the field beats every other candidate of its name -/
def isDominant (all : List TField) (f : TField) : Bool :=
  all.all fun o => o.index == f.index || o.name != f.name || dominates f o

/-- encode.go `typeFields(t)` for a struct type with the given declared fields -/
def typeFields (fields : List (FieldE GoTypeE)) : List TField :=
  (candidates [] 0 fields).filter (isDominant (candidates [] 0 fields))

/-- the JSON names json.Marshal emits for a fully populated value, in order -/
def fieldNames (fields : List (FieldE GoTypeE)) : List String := (typeFields fields).map (·.name)

/-- … those among them that are always written (neither omitempty nor omitzero) -/
def alwaysFieldNames (fields : List (FieldE GoTypeE)) : List String :=
  ((typeFields fields).filter fun f => !f.omitempty && !f.omitzero).map (·.name)

/-! ### typing -/

mutual
  def HasTypeE : GoTypeE → GoValue → Prop
    | .basic kind, v => basicHasType kind v
    | .ptr e, v => (match v with
        | .nilPtr => True
        | .ptr w => HasTypeE e w
        | _ => False)
    | .slice e, v => (match v with
        | .nilSlice => True
        | .slice vs => ∀ w, w ∈ vs → HasTypeE e w
        | _ => False)
    | .array n e, v => (match v with
        | .array vs => vs.length = n ∧ ∀ w, w ∈ vs → HasTypeE e w
        | _ => False)
    | .map _ e, v => (match v with
        | .map kvs => strictlySorted (kvs.map (·.1)) = true ∧ ∀ p, p ∈ kvs → HasTypeE e p.2
        | _ => False)
    | .struct fields, v => (match v with
        | .struct vs => HasTypeFieldsE fields vs
        | _ => False)
    | .named _ u, v => HasTypeE u v          -- a declared type without marshal methods: the values of its underlying type
    | .ref _, _ => False
  /-- one value per declared field; an ignored field may hold anything -/
  def HasTypeFieldsE : List (FieldE GoTypeE) → List GoValue → Prop
    | [], vs => vs = []
    | f :: rest, vs => (match vs with
        | v :: vs' =>
          (match classify f with
           | .ignored => True
           | .leaf => HasTypeE f.type v
           | .descend => HasTypeEmbE f.type v) ∧ HasTypeFieldsE rest vs'
        | [] => False)
  /-- the value of an embedded struct; an embedded pointer is not nil -/
  def HasTypeEmbE : GoTypeE → GoValue → Prop
    | .ptr (.named _ (.struct fs)), v => (match v with
        | .ptr (.struct vs) => HasTypeFieldsE fs vs
        | _ => False)
    | .ptr (.struct fs), v => (match v with
        | .ptr (.struct vs) => HasTypeFieldsE fs vs
        | _ => False)
    | .named _ (.struct fs), v => (match v with
        | .struct vs => HasTypeFieldsE fs vs
        | _ => False)
    | .struct fs, v => (match v with
        | .struct vs => HasTypeFieldsE fs vs
        | _ => False)
    | _, _ => False
end

/-! ### json.Marshal -/

mutual
  def encodeE : GoTypeE → GoValue → Json
    | .basic _, v => (match v with
        | .bool b => .bool b
        | .int i => .num (i : Rat)
        | .float q => .num q
        | .str s => .str s
        | .iface j => j
        | _ => .null)
    | .ptr e, v => (match v with
        | .ptr w => encodeE e w
        | _ => .null)
    | .slice e, v => (match v with
        | .slice vs => .arr (vs.map (encodeE e))
        | _ => .null)
    | .array _ e, v => (match v with
        | .array vs => .arr (vs.map (encodeE e))
        | _ => .null)
    | .map _ e, v => (match v with
        | .map kvs => .obj (kvs.map fun p => (p.1, encodeE e p.2))
        | _ => .null)
    | .struct fields, v => (match v with
        | .struct vs => .obj (encodeFieldsE (candidates [] 0 fields) [] 0 fields vs)
        | _ => .null)
    | .named _ u, v => encodeE u v           -- … encoded like its underlying type
    | .ref _, _ => .null
  /-- the members contributed by the struct at index `pre` of the outer struct whose candidates are `all`: the
      dominant fields in index order, without the omitted ones -/
  def encodeFieldsE (all : List TField) (pre : List Nat) : Nat → List (FieldE GoTypeE) → List GoValue → List (String × Json)
    | _, [], _ => []
    | i, f :: rest, vs => (match vs with
        | v :: vs' =>
          (match classify f with
           | .ignored => []
           | .leaf =>
             if isDominant all (mkTField (pre ++ [i]) f) && !fieldSkipped (fieldJSONInfo f.goName f.tag) v
             then [((fieldJSONInfo f.goName f.tag).name, encodeE f.type v)] else []
           | .descend => encodeEmbE all (pre ++ [i]) f.type v) ++ encodeFieldsE all pre (i + 1) rest vs'
        | [] => [])
  /-- … through an embedded struct; nothing through a nil embedded pointer -/
  def encodeEmbE (all : List TField) (idx : List Nat) : GoTypeE → GoValue → List (String × Json)
    | .ptr (.named _ (.struct fs)), v => (match v with
        | .ptr (.struct vs) => encodeFieldsE all idx 0 fs vs
        | _ => [])
    | .ptr (.struct fs), v => (match v with
        | .ptr (.struct vs) => encodeFieldsE all idx 0 fs vs
        | _ => [])
    | .named _ (.struct fs), v => (match v with
        | .struct vs => encodeFieldsE all idx 0 fs vs
        | _ => [])
    | .struct fs, v => (match v with
        | .struct vs => encodeFieldsE all idx 0 fs vs
        | _ => [])
    | _, _ => []
end

/-- json.Marshal -/
abbrev marshalE := encodeE

/-! ### json.Decoder with DisallowUnknownFields -/

mutual
  def decodableE : GoTypeE → Json → Bool
    | .basic kind, j => decodableBasic kind j
    | .ptr e, j => decodableE e j
    | .slice e, j => (match j with
        | .null => true
        | .arr xs => xs.all (decodableE e)
        | _ => false)
    | .array _ e, j => (match j with
        | .null => true
        | .arr xs => xs.all (decodableE e)
        | _ => false)
    | .map keyKind e, j => (match j with
        | .null => true
        | .obj kvs => keyKind == "String" && kvs.all fun p => decodableE e p.2
        | _ => false)
    | .struct fields, j => (match j with
        | .null => true
        | .obj kvs => kvs.all fun p =>
            match decodableFindE (candidates [] 0 fields) (fun n k => n == k) [] 0 fields p.1 p.2 with
            | some b => b                                                        -- the field of exactly that name
            | none => (decodableFindE (candidates [] 0 fields) foldEq [] 0 fields p.1 p.2).getD false   -- else the first one up to case; none: unknown field
        | _ => false)
    | .named _ u, j => decodableE u j        -- … decoded like its underlying type
    | .ref _, _ => false
  /-- the first dominant field (index order) whose JSON name matches the key -/
  def decodableFindE (all : List TField) (m : String → String → Bool) (pre : List Nat) :
      Nat → List (FieldE GoTypeE) → String → Json → Option Bool
    | _, [], _, _ => none
    | i, f :: rest, k, v =>
      match (match classify f with
             | .ignored => none
             | .leaf =>
               if isDominant all (mkTField (pre ++ [i]) f) && m (fieldJSONInfo f.goName f.tag).name k
               then some (decodableE f.type v) else none
             | .descend => decodableEmbFindE all m (pre ++ [i]) f.type k v) with
      | some b => some b
      | none => decodableFindE all m pre (i + 1) rest k v
  def decodableEmbFindE (all : List TField) (m : String → String → Bool) (idx : List Nat) :
      GoTypeE → String → Json → Option Bool
    | .ptr (.named _ (.struct fs)), k, v => decodableFindE all m idx 0 fs k v
    | .ptr (.struct fs), k, v => decodableFindE all m idx 0 fs k v
    | .named _ (.struct fs), k, v => decodableFindE all m idx 0 fs k v
    | .struct fs, k, v => decodableFindE all m idx 0 fs k v
    | _, _, _ => none
end

/-! ### the domain of the `_partial` theorems -/

/-- an exported, non-embedded field that is not `json:"-"` -/
def live (f : VField) : Bool := !f.anonymous && f.exported && !(fieldJSONInfo f.goName f.tag).omitted

def jsonNameOf (f : VField) : String := (fieldJSONInfo f.goName f.tag).name

/-- two different fields of one struct tree: if they have one Go name they are both live, sit at different depths
    and have the same JSON name; if they are live and have one JSON name they have the same Go name -/
def pairOk (a b : VField) : Bool :=
  (a.goName != b.goName ||
      (live a && live b && a.index.length != b.index.length && jsonNameOf a == jsonNameOf b)) &&
  (!(live a && live b && jsonNameOf a == jsonNameOf b) || a.goName == b.goName)

/-- `pairOk` for every two fields of the whole tree of a struct (`all` = every field, embedded ones and those of
    embedded structs included).  So "the JSON name of a field is determined by its Go name" and vice versa, no name
    is ambiguous at its depth, and Go's selector shadowing (reflect.VisibleFields) coincides with encoding/json's
    dominance. -/
def namesOk : List VField → Bool
  | [] => true
  | a :: rest => rest.all (pairOk a) && namesOk rest

mutual
  /-- EncJson.InDomain plus embedded fields: untagged, exported, of a declared struct type by value or by pointer -/
  def InDomainE : GoTypeE → Bool
    | .basic kind => domainKinds.contains kind
    | .ptr e => InDomainE e
    | .slice e => InDomainE e
    | .array _ e => InDomainE e
    | .map keyKind e => keyKind == "String" && InDomainE e
    | .struct fields => namesOk (allFields [] 0 fields) && inDomainFieldsE fields
    | .named _ _ => false
    | .ref _ => false
  def inDomainFieldsE : List (FieldE GoTypeE) → Bool
    | [] => true
    | f :: rest =>
      (if f.embedded then f.exported && (tagLookup "json" f.tag).isNone && inDomainEmbE f.type
       else !f.exported || (fieldJSONInfo f.goName f.tag).omitted || (fieldTagOk f.goName f.tag && InDomainE f.type)) &&
      inDomainFieldsE rest
  def inDomainEmbE : GoTypeE → Bool
    | .ptr (.named _ (.struct fs)) => inDomainFieldsE fs
    | .named _ (.struct fs) => inDomainFieldsE fs
    | _ => false
end

/-! ### declared (named) types in non-embedded positions

  As in EncJson.lean: a declared type without marshal methods is its underlying type (`HasTypeE`, `encodeE`, `decodableE`
  look through `.named`).  `eraseE T` replaces every declared type in a NON-embedded position by its underlying type; the
  type of an embedded field keeps its name (the Go name of the field, and the key of a TypeSchemas override), the fields
  below it are erased. -/

mutual
  def eraseE : GoTypeE → GoTypeE
    | .basic kind => .basic kind
    | .named _ u => eraseE u
    | .ref n => .ref n
    | .ptr e => .ptr (eraseE e)
    | .slice e => .slice (eraseE e)
    | .array n e => .array n (eraseE e)
    | .map keyKind e => .map keyKind (eraseE e)
    | .struct fields => .struct (eraseFieldsE fields)
  def eraseFieldsE : List (FieldE GoTypeE) → List (FieldE GoTypeE)
    | [] => []
    | f :: rest =>
      { goName := f.goName, tag := f.tag, exported := f.exported, embedded := f.embedded,
        type := if f.embedded then eraseEmbE f.type else eraseE f.type } :: eraseFieldsE rest
  /-- the type of an embedded field: the declared struct type stays, its fields are erased -/
  def eraseEmbE : GoTypeE → GoTypeE
    | .ptr (.named n (.struct fs)) => .ptr (.named n (.struct (eraseFieldsE fs)))
    | .ptr (.struct fs) => .ptr (.struct (eraseFieldsE fs))
    | .named n (.struct fs) => .named n (.struct (eraseFieldsE fs))
    | .struct fs => .struct (eraseFieldsE fs)
    | t => t
end

/-- `InDomainE` with declared types in non-embedded positions -/
def InDomainEN (T : GoTypeE) : Bool := InDomainE (eraseE T)

def namedShapeE : GoTypeE → Bool
  | .basic _ => true
  | .slice _ => true
  | .array _ _ => true
  | .map _ _ => true
  | .struct _ => true
  | _ => false

mutual
  /-- the declared types in non-embedded positions are transparent for `forTypeE` (decidable; as `EncJson.NamedOk`
      without marshaler types): none has an entry in the type table, the underlying type is a basic kind, slice, array,
      map or struct, no name occurs twice along a root-to-leaf path.  The declared types of embedded fields are not
      constrained: `forTypeE` never calls itself on them (their fields are promoted). -/
  def NamedOkE (opts : Go.IOpts) : List String → GoTypeE → Bool
    | _, .basic _ => true
    | seen, .ptr e => NamedOkE opts seen e
    | seen, .slice e => NamedOkE opts seen e
    | seen, .array _ e => NamedOkE opts seen e
    | seen, .map _ e => NamedOkE opts seen e
    | seen, .struct fields => namedOkFieldsE opts seen fields
    | seen, .named n u =>
      !seen.contains n && (Json.lookup n opts.schemas).isNone && namedShapeE u && NamedOkE opts (n :: seen) u
    | _, .ref _ => false
  def namedOkFieldsE (opts : Go.IOpts) : List String → List (FieldE GoTypeE) → Bool
    | _, [] => true
    | seen, f :: rest =>
      (if f.embedded then namedOkEmbE opts seen f.type else NamedOkE opts seen f.type) && namedOkFieldsE opts seen rest
  def namedOkEmbE (opts : Go.IOpts) : List String → GoTypeE → Bool
    | seen, .ptr (.named _ (.struct fs)) => namedOkFieldsE opts seen fs
    | seen, .ptr (.struct fs) => namedOkFieldsE opts seen fs
    | seen, .named _ (.struct fs) => namedOkFieldsE opts seen fs
    | seen, .struct fs => namedOkFieldsE opts seen fs
    | _, _ => true
end

mutual
  /-- a bound on the nesting depth of the schema (an embedded struct is counted as a level of its own) -/
  def depthE : GoTypeE → Nat
    | .basic _ => 1
    | .ptr e => depthE e
    | .slice e => depthE e + 1
    | .array _ e => depthE e + 1
    | .map _ e => depthE e + 1
    | .struct fields => depthFieldsE fields + 1
    | .named _ u => depthE u + 1
    | .ref _ => 1
  def depthFieldsE : List (FieldE GoTypeE) → Nat
    | [] => 0
    | f :: rest => max (depthE f.type) (depthFieldsE rest)
end

end EncJsonEmb
end JSV
