/-
  Spec: validity of a JSON instance against a schema under draft 2020-12 / draft-07, written
  keyword by keyword as a conjunction, with the evaluated properties / items computed as sets.
  No evaluation order, no early exit, no compressed annotation record, no stack of Go pointers.

  * a schema is valid for an instance iff every keyword it contains is;
  * the evaluated set of a valid schema is the union of what its adjacent keywords evaluate and of
    the evaluated sets of the in-place subschemas that are valid (nothing from `not`, nothing from a
    subschema that is invalid); `unevaluated*` apply to the complement;
  * under draft-07 the keywords later drafts introduced (`minContains`, `maxContains`, `unevaluatedItems`,
    `unevaluatedProperties`, `$dynamicRef`) are unknown keywords: they assert nothing and evaluate nothing (`vocab`);
  * `$ref` goes where `refTarget` says (C03 ties that to RFC 3986 resolution); `$dynamicRef` goes to
    the outermost schema resource of the dynamic scope that declares the dynamic anchor, when the
    initial target carries such an anchor, and to the initial target otherwise.

  Out = none: undefined with this fuel; some none: invalid; some (some ev): valid, evaluated = ev.
  Definedness is strict: every subschema application the keywords mention must be defined.
-/
import JSV.Model.Resolve
import JSV.Model.Unique
namespace JSV
namespace Spec
open Go (Draft)

structure Ev where
  props : List String := []
  items : List Nat := []
  deriving Repr, Inhabited

def Ev.union (a b : Ev) : Ev := { props := a.props ++ b.props, items := a.items ++ b.items }
def Ev.unions (es : List Ev) : Ev := es.foldl Ev.union {}

abbrev R := Option Ev          -- none = invalid
abbrev Out := Option R         -- none = undefined

structure Env where
  st : Store
  draft : Draft
  refTarget : NodeId → Option NodeId            -- what $ref of this schema designates
  dynInitial : NodeId → Option NodeId           -- initial (lexical) target of its $dynamicRef
  dynName : NodeId → String                     -- anchor name if that target carries a matching $dynamicAnchor, else ""
  resource : NodeId → Option NodeId             -- the schema resource a schema belongs to
  dynDecl : NodeId → String → Option NodeId     -- resource ↦ name ↦ the schema bearing $dynamicAnchor name
  reMatch : String → String → Bool

/-! ### assertions on one instance -/

def typeMatches (t : String) (j : Json) : Bool :=
  let got := j.typeName
  got == t || (got == "integer" && t == "number")

def typeOk (n : Node) (j : Json) : Bool :=
  if n.type != "" then typeMatches n.type j
  else match n.types with
    | some ts => ts.any fun t => typeMatches t j
    | none => true

def enumOk (n : Node) (j : Json) : Bool :=
  match n.enum with
  | some es => es.any fun e => Json.eqv e j
  | none => true

def constOk (n : Node) (j : Json) : Bool :=
  match n.const with
  | some c => Json.eqv c j
  | none => true

def numericOk (n : Node) (j : Json) : Bool :=
  match j with
  | .num q =>
    (match n.multipleOf with | some m => m != 0 && (q / m).den == 1 | none => true) &&
    (match n.minimum with | some m => decide (m ≤ q) | none => true) &&
    (match n.maximum with | some m => decide (q ≤ m) | none => true) &&
    (match n.exclusiveMinimum with | some m => decide (m < q) | none => true) &&
    (match n.exclusiveMaximum with | some m => decide (q < m) | none => true)
  | _ => true

def stringOk (env : Env) (n : Node) (j : Json) : Bool :=
  match j with
  | .str s =>
    (match n.minLength with | some m => decide (m ≤ (s.length : Int)) | none => true) &&
    (match n.maxLength with | some m => decide ((s.length : Int) ≤ m) | none => true) &&
    (n.pattern == "" || env.reMatch n.pattern s)
  | _ => true

/-! ### combining defined results -/

/-- all defined -/
def sequence {α : Type} : List (Option α) → Option (List α)
  | [] => some []
  | none :: _ => none
  | some a :: rest => (sequence rest).map (a :: ·)

/-- conjunction: valid iff all are, evaluated = union -/
def conj (rs : List R) : R :=
  if rs.all Option.isSome then some (Ev.unions (rs.filterMap id)) else none

def validCount (rs : List R) : Nat := (rs.filter Option.isSome).length

/-- union over the valid ones -/
def validUnion (rs : List R) : Ev := Ev.unions (rs.filterMap id)

/-- every subschema application must hold; nothing is collected (child instance locations) -/
def allHold (rs : List R) : Bool := rs.all Option.isSome

def indices (n : Nat) : List Nat := List.range n

/-! ### the dynamic scope -/

/-- the outermost resource on the scope declaring `name`; the scope lists the schemas entered,
    outermost first -/
def dynTarget (env : Env) (scope : List NodeId) (name : String) : Option NodeId :=
  scope.findSome? fun s =>
    match env.resource s with
    | some r => env.dynDecl r name
    | none => none

abbrev Rec := List NodeId → NodeId → Json → Out

/-! ### keywords that apply subschemas -/

/-- an optional single in-place subschema -/
def inPlace (sub : NodeId → Json → Out) (present : Bool) (t : Option NodeId) (j : Json) : Option R :=
  if present then
    match t with
    | some t => sub t j
    | none => none
  else some (some {})

def kwRef (env : Env) (sub : NodeId → Json → Out) (s : NodeId) (n : Node) (j : Json) : Option R :=
  inPlace sub (n.ref != "") (env.refTarget s) j

def kwDynamicRef (env : Env) (sub : NodeId → Json → Out) (scope : List NodeId) (s : NodeId) (n : Node) (j : Json) :
    Option R :=
  if n.dynamicRef != "" then
    match env.dynInitial s with
    | none => none
    | some initial =>
      let name := env.dynName s
      let t := if name == "" then initial else (dynTarget env scope name).getD initial
      sub t j
  else some (some {})

def kwAllOf (sub : NodeId → Json → Out) (n : Node) (j : Json) : Option R :=
  match n.allOf with
  | none => some (some {})
  | some ss => (sequence (ss.map fun t => sub t j)).map conj

def kwAnyOf (sub : NodeId → Json → Out) (n : Node) (j : Json) : Option R :=
  match n.anyOf with
  | none => some (some {})
  | some ss => (sequence (ss.map fun t => sub t j)).map fun rs =>
      if validCount rs > 0 then some (validUnion rs) else none

def kwOneOf (sub : NodeId → Json → Out) (n : Node) (j : Json) : Option R :=
  match n.oneOf with
  | none => some (some {})
  | some ss => (sequence (ss.map fun t => sub t j)).map fun rs =>
      if validCount rs == 1 then some (validUnion rs) else none

def kwNot (sub : NodeId → Json → Out) (n : Node) (j : Json) : Option R :=
  match n.not with
  | none => some (some {})
  | some t => (sub t j).map fun r => if r.isSome then none else some {}

def kwIf (sub : NodeId → Json → Out) (n : Node) (j : Json) : Option R :=
  match n.if_ with
  | none => some (some {})
  | some c =>
    match sub c j with
    | none => none
    | some rc =>
      let branch := if rc.isSome then n.then_ else n.else_
      let evc : Ev := rc.getD {}
      match branch with
      | none => some (some evc)
      | some b => (sub b j).map fun rb => rb.map fun evb => evc.union evb

/-- dependentSchemas (2020-12) / schema-form dependencies (draft-07) -/
def kwDependentSchemas (env : Env) (sub : NodeId → Json → Out) (n : Node) (j : Json) : Option R :=
  match j with
  | .obj kvs =>
    let ds := match env.draft with
      | .d7 => n.dependencySchemas.getD []
      | .d2020 => n.dependentSchemas.getD []
    let active := ds.filter fun (k, _) => (Json.lookup k kvs).isSome
    (sequence (active.map fun (_, t) => sub t j)).map conj
  | _ => some (some {})

/-! ### arrays -/

/-- (number of leading items covered by the positional keyword, the positional schemas, the schema for the rest) -/
def arrayShape (env : Env) (n : Node) : List NodeId × Option NodeId :=
  match env.draft with
  | .d2020 => (n.prefixItems.getD [], n.items)
  | .d7 =>
    match n.itemsArray with
    | some ia => (ia, n.additionalItems)
    | none => ([], n.items)

def kwItems (env : Env) (sub : NodeId → Json → Out) (n : Node) (j : Json) : Option R :=
  match j with
  | .arr xs =>
    let (pre, rest) := arrayShape env n
    let preRs := (pre.zip xs).map fun (t, x) => sub t x
    let restRs := match rest with
      | some t => (xs.drop pre.length).map fun x => sub t x
      | none => []
    (sequence (preRs ++ restRs)).map fun rs =>
      if allHold rs then
        some { items := if rest.isSome then indices xs.length else indices (min pre.length xs.length) }
      else none
  | _ => some (some {})

def kwContains (sub : NodeId → Json → Out) (n : Node) (j : Json) : Option R :=
  match j, n.contains with
  | .arr xs, some c =>
    (sequence (xs.map fun x => sub c x)).map fun rs =>
      let hits := (rs.zip (indices xs.length)).filterMap fun (r, i) => if r.isSome then some i else none
      let cnt : Int := hits.length
      let minOk := match n.minContains with
        | some m => decide (m ≤ cnt)
        | none => decide (1 ≤ cnt)
      let maxOk := match n.maxContains with
        | some m => decide (cnt ≤ m)
        | none => true
      if minOk && maxOk then some { items := hits } else none
  | _, _ => some (some {})

def arrayLimitsOk (n : Node) (j : Json) : Bool :=
  match j with
  | .arr xs =>
    (match n.minItems with | some m => decide (m ≤ (xs.length : Int)) | none => true) &&
    (match n.maxItems with | some m => decide ((xs.length : Int) ≤ m) | none => true) &&
    (!n.uniqueItems || Spec.distinct xs)
  | _ => true

/-! ### objects -/

/-- properties ∪ patternProperties ∪ additionalProperties at this schema object -/
def kwProps (env : Env) (sub : NodeId → Json → Out) (n : Node) (j : Json) : Option R :=
  match j with
  | .obj kvs =>
    let props := n.properties.getD []
    let pats := n.patternProperties.getD []
    let named := kvs.filterMap fun (k, v) => (Json.lookup k props).map fun t => (k, sub t v)
    let patterned := kvs.flatMap fun (k, v) =>
      (pats.filter fun (re, _) => env.reMatch re k).map fun (_, t) => (k, sub t v)
    let covered := (named.map (·.1)) ++ (patterned.map (·.1))
    let additional := match n.additionalProperties with
      | some t => (kvs.filter fun (k, _) => !covered.contains k).map fun (k, v) => (k, sub t v)
      | none => []
    let all := named ++ patterned ++ additional
    (sequence (all.map (·.2))).map fun rs =>
      if allHold rs then some { props := all.map (·.1) } else none
  | _ => some (some {})

def kwPropertyNames (sub : NodeId → Json → Out) (n : Node) (j : Json) : Option R :=
  match j, n.propertyNames with
  | .obj kvs, some t =>
    (sequence (kvs.map fun (k, _) => sub t (.str k))).map fun rs => if allHold rs then some {} else none
  | _, _ => some (some {})

def objectLimitsOk (env : Env) (n : Node) (j : Json) : Bool :=
  match j with
  | .obj kvs =>
    let has (k : String) : Bool := (Json.lookup k kvs).isSome
    (match n.minProperties with | some m => decide (m ≤ (kvs.length : Int)) | none => true) &&
    (match n.maxProperties with | some m => decide ((kvs.length : Int) ≤ m) | none => true) &&
    (match n.required with | some r => r.all has | none => true) &&
    ((match env.draft with
        | .d7 => n.dependencyStrings.getD []
        | .d2020 => n.dependentRequired.getD []).all fun (k, reqs) => !has k || (reqs.getD []).all has)
  | _ => true

/-! ### unevaluated* -/

def kwUnevaluatedItems (sub : NodeId → Json → Out) (n : Node) (j : Json) (ev : Ev) : Option R :=
  match j, n.unevaluatedItems with
  | .arr xs, some t =>
    let todo := (xs.zip (indices xs.length)).filter fun (_, i) => !ev.items.contains i
    (sequence (todo.map fun (x, _) => sub t x)).map fun rs =>
      if allHold rs then some { items := indices xs.length } else none
  | _, _ => some (some {})

def kwUnevaluatedProps (sub : NodeId → Json → Out) (n : Node) (j : Json) (ev : Ev) : Option R :=
  match j, n.unevaluatedProperties with
  | .obj kvs, some t =>
    let todo := kvs.filter fun (k, _) => !ev.props.contains k
    (sequence (todo.map fun (_, v) => sub t v)).map fun rs =>
      if allHold rs then some { props := kvs.map (·.1) } else none
  | _, _ => some (some {})

/-! ### the vocabulary of the draft -/

/-- The schema object as a validator of draft `d` reads it.  `minContains`, `maxContains`, `unevaluatedItems`,
    `unevaluatedProperties` and `$dynamicRef` are keywords of 2020-12 only: under draft-07 they are unknown keywords,
    which a validator ignores — they are absent as far as validity and the evaluated sets go (a draft-07
    `$dynamicRef` designates nothing: it need not even resolve).  (The other keywords whose
    meaning depends on the draft — `items`, `prefixItems`, `dependencies`, `dependent*` — are dispatched inside
    their keyword functions, which read the form of their own draft only.) -/
def vocab (d : Draft) (n : Node) : Node :=
  { n with
    dynamicRef := if d == .d7 then "" else n.dynamicRef
    minContains := if d == .d7 then none else n.minContains
    maxContains := if d == .d7 then none else n.maxContains
    unevaluatedItems := if d == .d7 then none else n.unevaluatedItems
    unevaluatedProperties := if d == .d7 then none else n.unevaluatedProperties }

/-! ### one schema object -/

def evalStep (env : Env) (rec : Rec) (scope0 : List NodeId) (s : NodeId) (j : Json) : Out :=
  match env.st.get? s with
  | none => none
  | some n =>
    let scope := scope0 ++ [s]
    let sub := rec scope
    let nv := vocab env.draft n          -- draft-07: without the keywords of later drafts
    if env.draft == .d7 && n.ref != "" then
      -- draft-07: every other member of a $ref object is ignored
      (kwRef env sub s n j).map fun r => r.map fun _ => {}
    else
      let asserts := typeOk n j && enumOk n j && constOk n j && numericOk n j && stringOk env n j &&
                     arrayLimitsOk n j && objectLimitsOk env n j
      match sequence [kwRef env sub s n j, kwDynamicRef env sub scope s nv j, kwAllOf sub n j, kwAnyOf sub n j,
                      kwOneOf sub n j, kwNot sub n j, kwIf sub n j, kwItems env sub n j, kwContains sub nv j,
                      kwProps env sub n j, kwPropertyNames sub n j, kwDependentSchemas env sub n j] with
      | none => none
      | some rs =>
        match conj rs with
        | none => some none
        | some ev0 =>
          if !asserts then some none else
          -- unevaluatedItems sees everything but itself; unevaluatedProperties likewise
          match kwUnevaluatedItems sub nv j ev0, kwUnevaluatedProps sub nv j ev0 with
          | some ri, some rp => some (conj [some ev0, ri, rp])
          | _, _ => none

def evalFuel (env : Env) : Nat → Rec
  | 0 => fun _ _ _ => none
  | fuel + 1 => evalStep env (evalFuel env fuel)

/-- the instance is valid against the schema rooted at `root` -/
def valid (env : Env) (fuel : Nat) (root : NodeId) (j : Json) : Option Bool :=
  (evalFuel env fuel [] root j).map Option.isSome

end Spec
end JSV
