/-
  Spec: encoding/json on the plain-data fragment that `jsonschema.For` is stated about (C04, C09, C16).

  * `GoValue`   : a value of a `GoType` of the fragment;
  * `HasType`   : typing (sized integers within their range, arrays of the exact length, structs field-wise;
                  a `json:"-"` field may have any type and value);
  * `encode`    : json.Marshal;
  * `decodable` : json.Decoder with DisallowUnknownFields accepts the document for the type;
  * `InDomain`  : the domain of the properties (H_D14: pairwise distinct JSON names; H_D15: tag names that
                  encoding/json accepts; no named types; string-keyed maps);
  * `InDomainN` : … with declared (named) types, which encoding/json treats like their underlying types
                  (`erase`); `NamedOk`: the side condition under which `forType` does so too.

  Not modelled (outside the fragment, excluded by the harness domain as well): nil maps (json.Marshal
  writes `null`), embedded fields (JSV/Spec/EncJsonEmb.lean), the `,string` option, []byte, Marshaler implementations
  other than "the JSON form is a string" (see "declared (named) types" below: a declared type without marshal methods
  is its underlying type; a marshaler type whose output is a JSON string is `.named n (.basic "String")`).
  A Go map is represented by its entries in increasing key order, which is the order json.Marshal emits.
-/
import JSV.Model.Infer
namespace JSV
namespace EncJson
open Go (GoType fieldJSONInfo JsonInfo foldEq)

inductive GoValue where
  | bool (b : Bool)
  | int (i : Int)
  | float (q : Rat)
  | str (s : String)
  | nilPtr
  | ptr (v : GoValue)
  | nilSlice
  | slice (vs : List GoValue)
  | array (vs : List GoValue)
  | map (kvs : List (String × GoValue))
  | iface (j : Json)                       -- an `any` holding the value that marshals to `j` (nil ↦ null)
  | struct (fieldValues : List GoValue)    -- one value per declared field, in declaration order
  deriving Inhabited

/-! ### kinds -/

/-- the value range of an integer kind (64-bit platform) -/
def intRange (kind : String) : Option (Int × Int) :=
  if kind = "Int8" then some (-128, 127)
  else if kind = "Int16" then some (-32768, 32767)
  else if kind = "Int32" then some (-2147483648, 2147483647)
  else if kind = "Int64" then some (-9223372036854775808, 9223372036854775807)
  else if kind = "Int" then some (-9223372036854775808, 9223372036854775807)
  else if kind = "Uint8" then some (0, 255)
  else if kind = "Uint16" then some (0, 65535)
  else if kind = "Uint32" then some (0, 4294967295)
  else if kind = "Uint64" then some (0, 18446744073709551615)
  else if kind = "Uint" then some (0, 18446744073709551615)
  else if kind = "Uintptr" then some (0, 18446744073709551615)
  else none

def intKinds : List String :=
  ["Int8", "Int16", "Int32", "Int64", "Int", "Uint8", "Uint16", "Uint32", "Uint64", "Uint", "Uintptr"]

/-- the sized kinds whose range the schema states in full -/
def sizedKinds : List String := ["Int8", "Int16", "Int32", "Uint8", "Uint16", "Uint32"]

def unsignedKinds : List String := ["Uint8", "Uint16", "Uint32", "Uint64", "Uint", "Uintptr"]

def floatKinds : List String := ["Float32", "Float64"]

def minValue (kind : String) : Option Int := (intRange kind).map (·.1)
def maxValue (kind : String) : Option Int := (intRange kind).map (·.2)

/-- the basic kinds of the fragment -/
def domainKinds : List String := ["Bool", "String", "Interface"] ++ floatKinds ++ intKinds

/-! ### struct fields as encoding/json sees them -/

/-- the JSON names of the fields that are not `json:"-"`, in declaration order -/
def jsonNames (fields : List (String × String × GoType)) : List String :=
  fields.filterMap fun f =>
    if (fieldJSONInfo f.1 f.2.1).omitted then none else some (fieldJSONInfo f.1 f.2.1).name

/-- … those among them that are always written (neither omitempty nor omitzero) -/
def alwaysNames (fields : List (String × String × GoType)) : List String :=
  fields.filterMap fun f =>
    if (fieldJSONInfo f.1 f.2.1).omitted || (fieldJSONInfo f.1 f.2.1).omitempty || (fieldJSONInfo f.1 f.2.1).omitzero
    then none else some (fieldJSONInfo f.1 f.2.1).name

/-- encoding/json isValidTag: non-empty, letters, digits and a fixed set of punctuation (H_D15) -/
def validTagName (s : String) : Bool :=
  !s.isEmpty && s.toList.all fun c =>
    c.isAlphanum || "!#$%&()*+-./:;<=>?@[]^_{|}~ ".toList.contains c || c.toNat ≥ 128

/-- H_D15 for one field: an explicit tag name is one that encoding/json accepts -/
def fieldTagOk (goName tag : String) : Bool :=
  (fieldJSONInfo goName tag).omitted || (fieldJSONInfo goName tag).name == goName ||
    validTagName (fieldJSONInfo goName tag).name

def nodup : List String → Bool
  | [] => true
  | k :: ks => !ks.contains k && nodup ks

/-! ### emptiness / zero-ness (omitempty, omitzero) -/

/-- encoding/json isEmptyValue: false, 0, "", nil pointer / interface, and every slice, array or map of length 0 -/
def isEmptyValue : GoValue → Bool
  | .bool b => !b
  | .int i => i == 0
  | .float q => q == 0
  | .str s => s == ""
  | .nilPtr => true
  | .nilSlice => true
  | .slice vs => vs.isEmpty
  | .array vs => vs.isEmpty
  | .map kvs => kvs.isEmpty
  | .iface j => match j with | .null => true | _ => false
  | _ => false

mutual
  /-- reflect.Value.IsZero -/
  def isZeroValue : GoValue → Bool
    | .bool b => !b
    | .int i => i == 0
    | .float q => q == 0
    | .str s => s == ""
    | .nilPtr => true
    | .nilSlice => true
    | .array vs => isZeroList vs
    | .struct vs => isZeroList vs
    | .iface j => (match j with | .null => true | _ => false)
    | _ => false
  def isZeroList : List GoValue → Bool
    | [] => true
    | v :: vs => isZeroValue v && isZeroList vs
end

/-- is the field left out of the output -/
def fieldSkipped (info : JsonInfo) (v : GoValue) : Bool :=
  info.omitted || (info.omitempty && isEmptyValue v) || (info.omitzero && isZeroValue v)

/-! ### typing -/

def strictlySorted : List String → Bool
  | [] => true
  | [_] => true
  | a :: b :: rest => decide (a < b) && strictlySorted (b :: rest)

def basicHasType (kind : String) : GoValue → Prop
  | .bool _ => kind = "Bool"
  | .int i => ∃ lo hi, intRange kind = some (lo, hi) ∧ lo ≤ i ∧ i ≤ hi
  | .float _ => kind ∈ floatKinds
  | .str _ => kind = "String"
  | .iface j => kind = "Interface" ∧ Json.WF j = true
  | _ => False

mutual
  def HasType : GoType → GoValue → Prop
    | .basic kind, v => basicHasType kind v
    | .ptr e, v => (match v with
        | .nilPtr => True
        | .ptr w => HasType e w
        | _ => False)
    | .slice e, v => (match v with
        | .nilSlice => True
        | .slice vs => ∀ w, w ∈ vs → HasType e w
        | _ => False)
    | .array n e, v => (match v with
        | .array vs => vs.length = n ∧ ∀ w, w ∈ vs → HasType e w
        | _ => False)
    | .map _ e, v => (match v with
        | .map kvs => strictlySorted (kvs.map (·.1)) = true ∧ ∀ p, p ∈ kvs → HasType e p.2
        | _ => False)
    | .struct fields, v => (match v with
        | .struct vs => HasTypeFields fields vs
        | _ => False)
    | .named _ u, v => HasType u v          -- a declared type without marshal methods: the values of its underlying type
    | .ref _, _ => False
  def HasTypeFields : List (String × String × GoType) → List GoValue → Prop
    | [], vs => vs = []
    | f :: rest, vs => (match vs with
        | v :: vs' => ((fieldJSONInfo f.1 f.2.1).omitted = true ∨ HasType f.2.2 v) ∧ HasTypeFields rest vs'
        | [] => False)
end

/-! ### json.Marshal -/

mutual
  def encode : GoType → GoValue → Json
    | .basic _, v => (match v with
        | .bool b => .bool b
        | .int i => .num (i : Rat)
        | .float q => .num q
        | .str s => .str s
        | .iface j => j
        | _ => .null)
    | .ptr e, v => (match v with
        | .ptr w => encode e w
        | _ => .null)
    | .slice e, v => (match v with
        | .slice vs => .arr (vs.map (encode e))
        | _ => .null)
    | .array _ e, v => (match v with
        | .array vs => .arr (vs.map (encode e))
        | _ => .null)
    | .map _ e, v => (match v with
        | .map kvs => .obj (kvs.map fun p => (p.1, encode e p.2))
        | _ => .null)
    | .struct fields, v => (match v with
        | .struct vs => .obj (encodeFields fields vs)
        | _ => .null)
    | .named _ u, v => encode u v            -- … encoded like its underlying type
    | .ref _, _ => .null
  /-- the members of a struct: the fields in order, without the omitted ones -/
  def encodeFields : List (String × String × GoType) → List GoValue → List (String × Json)
    | [], _ => []
    | f :: rest, vs => (match vs with
        | v :: vs' =>
          if fieldSkipped (fieldJSONInfo f.1 f.2.1) v then encodeFields rest vs'
          else ((fieldJSONInfo f.1 f.2.1).name, encode f.2.2 v) :: encodeFields rest vs'
        | [] => [])
end

/-! ### json.Decoder with DisallowUnknownFields -/

def decodableBasic (kind : String) (j : Json) : Bool :=
  match j with
  | .null => true
  | .bool _ => kind == "Bool" || kind == "Interface"
  | .str _ => kind == "String" || kind == "Interface"
  | .num q =>
    kind == "Interface" || floatKinds.contains kind ||
      (match intRange kind with
       | some (lo, hi) => q.den == 1 && decide ((lo : Rat) ≤ q) && decide (q ≤ (hi : Rat))
       | none => false)
  | _ => kind == "Interface"

mutual
  def decodable : GoType → Json → Bool
    | .basic kind, j => decodableBasic kind j
    | .ptr e, j => decodable e j
    | .slice e, j => (match j with
        | .null => true
        | .arr xs => xs.all (decodable e)
        | _ => false)
    | .array _ e, j => (match j with
        | .null => true
        | .arr xs => xs.all (decodable e)      -- any length: missing elements are zeroed, extra ones dropped
        | _ => false)
    | .map keyKind e, j => (match j with
        | .null => true
        | .obj kvs => keyKind == "String" && kvs.all fun p => decodable e p.2
        | _ => false)
    | .struct fields, j => (match j with
        | .null => true
        | .obj kvs => kvs.all fun p =>
            match decodableExact fields p.1 p.2 with
            | some b => b
            | none => (decodableFold fields p.1 p.2).getD false    -- no field at all: unknown field error
        | _ => false)
    | .named _ u, j => decodable u j         -- … decoded like its underlying type
    | .ref _, _ => false
  /-- the field whose JSON name is exactly the key, if any -/
  def decodableExact : List (String × String × GoType) → String → Json → Option Bool
    | [], _, _ => none
    | f :: rest, k, v =>
      if !(fieldJSONInfo f.1 f.2.1).omitted && (fieldJSONInfo f.1 f.2.1).name == k then some (decodable f.2.2 v)
      else decodableExact rest k v
  /-- otherwise the first field whose name matches case-insensitively -/
  def decodableFold : List (String × String × GoType) → String → Json → Option Bool
    | [], _, _ => none
    | f :: rest, k, v =>
      if !(fieldJSONInfo f.1 f.2.1).omitted && foldEq (fieldJSONInfo f.1 f.2.1).name k then some (decodable f.2.2 v)
      else decodableFold rest k v
end

/-! ### integer literals that fit a machine word (C09) -/

mutual
  /-- every integer-valued number of the document lies within int64.  (This is the part of C09's `PlainInts`
      the number model can express: literals without fraction / exponent are not distinguishable from other
      spellings of the same rational.  The bound is the one that suffices for every kind; for the unsigned
      64-bit kinds it leaves out [2^63, 2^64), which would decode as well.) -/
  def PlainInts : Json → Bool
    | .num q => q.den != 1 ||
        (decide (((-9223372036854775808 : Int) : Rat) ≤ q) && decide (q ≤ ((9223372036854775807 : Int) : Rat)))
    | .arr xs => plainIntsList xs
    | .obj kvs => plainIntsObj kvs
    | _ => true
  def plainIntsList : List Json → Bool
    | [] => true
    | x :: xs => PlainInts x && plainIntsList xs
  def plainIntsObj : List (String × Json) → Bool
    | [] => true
    | (_, v) :: rest => PlainInts v && plainIntsObj rest
end

/-! ### the domain -/

mutual
  def InDomain : GoType → Bool
    | .basic kind => domainKinds.contains kind
    | .ptr e => InDomain e
    | .slice e => InDomain e
    | .array _ e => InDomain e
    | .map keyKind e => keyKind == "String" && InDomain e
    | .struct fields =>
      nodup (jsonNames fields) &&                               -- H_D14
      fields.all (fun f => fieldTagOk f.1 f.2.1) &&             -- H_D15
      inDomainFields fields
    | .named _ _ => false
    | .ref _ => false
  def inDomainFields : List (String × String × GoType) → Bool
    | [] => true
    | f :: rest => ((fieldJSONInfo f.1 f.2.1).omitted || InDomain f.2.2) && inDomainFields rest
end

/-! ### declared (named) types

  For encoding/json a declared type WITHOUT marshal methods (`type Point struct{…}`, `type Celsius float64`,
  `type IDs []int`) is its underlying type: `HasType`, `encode` and `decodable` above look through `.named`.
  `erase T` is `T` with every declared type replaced by its underlying type; `InDomainN` is `InDomain` with
  declared types allowed (`inDomainN_eq_erase`: `InDomainN T = InDomain (erase T)`).

  A declared type WITH a `MarshalJSON` / `MarshalText` method whose output is a JSON string (time.Time, slog.Level,
  big.Rat, big.Float — the entries of `initialSchemaMap` other than big.Int, which marshals as a number: known
  finding D13) is represented as `.named n (.basic "String")`: its values are `GoValue.str s`, `s` being the
  marshaled text, and `encode` gives `.str s`.  What is modelled of such a type is exactly this: every value
  marshals to some JSON string; nothing is said about which strings occur. -/

mutual
  /-- every declared type replaced by its underlying type -/
  def erase : GoType → GoType
    | .basic kind => .basic kind
    | .ptr e => .ptr (erase e)
    | .slice e => .slice (erase e)
    | .array n e => .array n (erase e)
    | .map keyKind e => .map keyKind (erase e)
    | .struct fields => .struct (eraseFields fields)
    | .named _ u => erase u
    | .ref n => .ref n
  def eraseFields : List (String × String × GoType) → List (String × String × GoType)
    | [] => []
    | f :: rest => (f.1, f.2.1, erase f.2.2) :: eraseFields rest
end

mutual
  /-- `InDomain` with declared types (H_D14 and H_D15 as there; `.ref`, a back reference of a recursive type, stays
      outside) -/
  def InDomainN : GoType → Bool
    | .basic kind => domainKinds.contains kind
    | .ptr e => InDomainN e
    | .slice e => InDomainN e
    | .array _ e => InDomainN e
    | .map keyKind e => keyKind == "String" && InDomainN e
    | .struct fields =>
      nodup (jsonNames fields) &&
      fields.all (fun f => fieldTagOk f.1 f.2.1) &&
      inDomainFieldsN fields
    | .named _ u => InDomainN u
    | .ref _ => false
  def inDomainFieldsN : List (String × String × GoType) → Bool
    | [] => true
    | f :: rest => ((fieldJSONInfo f.1 f.2.1).omitted || InDomainN f.2.2) && inDomainFieldsN rest
end

/-- the underlying type of a declared type, as the model of `forType` knows it: a basic kind, a slice, an array, a map
    or a struct.  (`type P *T` is not modelled — `Go.inferStep` answers `panic` —, and the underlying type of a
    declared type is never a declared type.) -/
def namedShape : GoType → Bool
  | .basic _ => true
  | .slice _ => true
  | .array _ _ => true
  | .map _ _ => true
  | .struct _ => true
  | _ => false

def isStringKind : GoType → Bool
  | .basic kind => kind == "String"
  | _ => false

mutual
  /-- **the declared types of `T` are transparent for `forType`** (decidable).  `seen` is the list of declared types
      being expanded (the argument of `forType`; `[]` at the root).  For every declared type `.named n u` that occurs
      in `T` — in any field, the `json:"-"` ones included —:
      * `n` is not being expanded: no name occurs twice along one root-to-leaf path (the cycle check of `forType` fires
        otherwise; the same name at two sibling positions is fine, `seen` is path-local);
      * if `n` is not one of the marshaler types `strs`: `n` has no entry in the type table, and `u` is a basic kind,
        slice, array, map or struct (`namedShape`) whose declared types are transparent again;
      * if `n` is one of the marshaler types `strs` (types whose table entry is the schema `{"type":"string"}`, see
        `StrEntries`): it has an entry, it is represented as `.named n (.basic "String")`, and `null` is added to the
        clones of table entries for pointers (`nullForSlices`, the default). -/
  def NamedOk (opts : Go.IOpts) (strs : List String) : List String → GoType → Bool
    | _, .basic _ => true
    | seen, .ptr e => NamedOk opts strs seen e
    | seen, .slice e => NamedOk opts strs seen e
    | seen, .array _ e => NamedOk opts strs seen e
    | seen, .map _ e => NamedOk opts strs seen e
    | seen, .struct fields => namedOkFields opts strs seen fields
    | seen, .named n u =>
      !seen.contains n &&
      (if strs.contains n then opts.nullForSlices && (Json.lookup n opts.schemas).isSome && isStringKind u
       else (Json.lookup n opts.schemas).isNone && namedShape u && NamedOk opts strs (n :: seen) u)
    | _, .ref _ => false
  def namedOkFields (opts : Go.IOpts) (strs : List String) : List String → List (String × String × GoType) → Bool
    | _, [] => true
    | seen, f :: rest => NamedOk opts strs seen f.2.2 && namedOkFields opts strs seen rest
end

/-- the schema `{"type":"string"}` -/
def strNode : Node := { type := "string" }

/-- every marshaler type of `strs` has an entry in the type table, and the entry is the schema `{"type":"string"}` -/
def StrEntries (schemas : List (String × NodeId)) (strs : List String) (st : Store) : Prop :=
  ∀ n, n ∈ strs → ∀ sid, Json.lookup n schemas = some sid → st.get? sid = some strNode

mutual
  /-- how many nested schema applications the schema of the type needs at most -/
  def depth : GoType → Nat
    | .basic _ => 1
    | .ptr e => depth e
    | .slice e => depth e + 1
    | .array _ e => depth e + 1
    | .map _ e => depth e + 1
    | .struct fields => depthFields fields + 1
    | .named _ u => depth u + 1
    | .ref _ => 1
  def depthFields : List (String × String × GoType) → Nat
    | [] => 0
    | f :: rest => max (depth f.2.2) (depthFields rest)
end

end EncJson
end JSV
